#![cfg(unix)]

use std::sync::mpsc;
use std::thread;
use std::time::{Duration, Instant};

use subprocess::Exec;

fn with_watchdog<T: Send + 'static>(
    limit: Duration,
    f: impl FnOnce() -> T + Send + 'static,
) -> Option<T> {
    let (tx, rx) = mpsc::channel();
    thread::spawn(move || {
        let _ = tx.send(f());
    });
    rx.recv_timeout(limit).ok()
}

const LIST_FDS: &str =
    "ls -l /proc/$$/fd | sed -n 's/.* \\([0-9]*\\) -> \\(.*\\)/\\1 \\2/p' >&2";

#[test]
fn pipeline_children_descriptors() {
    let c = (Exec::shell(LIST_FDS) | Exec::shell(format!("sleep 0.2; {}", LIST_FDS)))
        .capture()
        .unwrap();
    println!("{}", c.stderr_str());
    let extra: Vec<String> = c
        .stderr_str()
        .lines()
        .filter(|l| l.contains("pipe:"))
        .filter(|l| l.split(' ').next().unwrap().parse::<i32>().unwrap() > 2)
        .map(|l| l.to_string())
        .collect();
    assert!(extra.is_empty(), "extra pipe descriptors in children: {:?}", extra);
}

#[test]
fn pipeline_communicate_returns_when_streams_closed() {
    let res = with_watchdog(Duration::from_secs(20), || {
        let mut comm = (Exec::shell("echo hello; echo oops >&2; exec >&- 2>&-; sleep 4")
            | Exec::cmd("cat"))
        .communicate()
        .unwrap();
        let start = Instant::now();
        let out = comm.read().unwrap();
        (start.elapsed(), out)
    });
    let (elapsed, (out, err)) = res.expect("hung");
    println!("read returned after {:?}", elapsed);
    assert_eq!(out.unwrap(), b"hello\n");
    assert_eq!(err.unwrap(), b"oops\n");
    assert!(elapsed < Duration::from_secs(2), "returned only after {:?}", elapsed);
}
