// Demonstration for C05: a Redirection::File whose descriptor number happens
// to be 0, 1 or 2 (possible whenever the parent runs with a closed standard
// descriptor, e.g. started as `prog <&-`, and then opens a file) is not wired
// to the requested child stream.
//
// One #[test] only: it closes descriptor 0 of the test process.
#![cfg(unix)]

use std::fs::File;
use std::io::{Read, Seek, SeekFrom, Write};
use std::os::unix::io::AsRawFd;

use subprocess::{Popen, PopenConfig, Redirection};

#[test]
fn file_redirection_with_low_descriptor_number() {
    let dir = tempfile::tempdir().unwrap();

    // The parent runs without a standard input.
    assert_eq!(unsafe { libc::close(0) }, 0);

    let mut failures = vec![];

    // --- Case A: the file given for stdin has descriptor number 0 ---------
    let in_path = dir.path().join("input");
    std::fs::write(&in_path, b"payload").unwrap();
    let f = File::open(&in_path).unwrap();
    assert_eq!(f.as_raw_fd(), 0, "test premise: lowest free descriptor is 0");
    let mut p = Popen::create(
        &["cat"],
        PopenConfig {
            stdin: Redirection::File(f),
            stdout: Redirection::Pipe,
            stderr: Redirection::Pipe,
            ..Default::default()
        },
    )
    .unwrap();
    let (out, err) = p.communicate(None).unwrap();
    let status = p.wait().unwrap();
    println!("case A: stdout={:?} stderr={:?} status={:?}", out, err, status);
    if out.as_deref() != Some("payload") {
        failures.push(format!(
            "A: child's stdin is not the given file: cat printed {:?}, stderr {:?}, {:?}",
            out, err, status
        ));
    }

    // --- Case B: the file given for stdout has descriptor number 0, and
    //     stdin is redirected as well ---------------------------------------
    let out_path = dir.path().join("output");
    let f0 = File::create(&out_path).unwrap();
    assert_eq!(f0.as_raw_fd(), 0, "test premise: lowest free descriptor is 0");
    let mut check = File::open(&out_path).unwrap();
    let mut p = Popen::create(
        &["sh", "-c", "cat; echo done"],
        PopenConfig {
            stdin: Redirection::Pipe,
            stdout: Redirection::File(f0),
            stderr: Redirection::Pipe,
            ..Default::default()
        },
    )
    .unwrap();
    let (out, err) = p.communicate(Some("input\n")).unwrap_or_else(|e| {
        println!("case B: communicate error: {}", e);
        (None, None)
    });
    let status = p.wait().unwrap();
    let mut content = String::new();
    check.seek(SeekFrom::Start(0)).unwrap();
    check.read_to_string(&mut content).unwrap();
    println!(
        "case B: file content={:?} stdout={:?} stderr={:?} status={:?}",
        content, out, err, status
    );
    if content != "input\ndone\n" {
        failures.push(format!(
            "B: child's stdout is not the given file: file holds {:?}, child stderr {:?}, {:?}",
            content, err, status
        ));
    }

    std::io::stdout().flush().unwrap();
    assert!(failures.is_empty(), "\n{}", failures.join("\n"));
}
