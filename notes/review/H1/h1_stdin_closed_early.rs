// Demonstration for C02 (and the "closes stdin early" case of C01/C04): when
// the child stops reading its stdin before the parent has delivered all the
// input, the exchange fails with EPIPE and the child's output is lost; with
// a Communicator every later read() fails the same way, so the output can
// never be retrieved.
#![cfg(unix)]

use std::sync::mpsc;
use std::thread;
use std::time::Duration;

use subprocess::{Exec, Popen, PopenConfig, Redirection};

fn with_watchdog<T: Send + 'static>(
    limit: Duration,
    f: impl FnOnce() -> T + Send + 'static,
) -> Option<T> {
    let (tx, rx) = mpsc::channel();
    thread::spawn(move || {
        let _ = tx.send(f());
    });
    rx.recv_timeout(limit).ok()
}

fn big_input() -> Vec<u8> {
    // far above the pipe capacity, so the parent cannot have written it all
    // by the time the child closes its stdin
    let mut v = b"hello\n".to_vec();
    v.resize(1 << 20, b'x');
    v
}

// `head -n 1` reads the first line, prints it and exits: a perfectly ordinary
// filter that does not consume all of its input.
#[test]
fn capture_of_a_child_that_does_not_read_all_input() {
    let res = with_watchdog(Duration::from_secs(20), || {
        Exec::cmd("head")
            .args(&["-n", "1"])
            .stdin(big_input())
            .stdout(Redirection::Pipe)
            .capture()
            .map(|c| (c.stdout, c.exit_status))
            .map_err(|e| e.to_string())
    })
    .expect("hung");
    println!("capture -> {:?}", res.as_ref().map(|(o, s)| (String::from_utf8_lossy(o).into_owned(), *s)));
    let (out, _status) = res.expect("capture failed although the child ran fine and wrote its output");
    assert_eq!(out, b"hello\n");
}

// The child closes stdin at once, then writes its output in two parts.
#[test]
fn communicator_output_after_child_closed_stdin() {
    let res = with_watchdog(Duration::from_secs(20), || {
        let mut p = Popen::create(
            &["sh", "-c", "exec <&-; sleep 0.3; echo first; sleep 0.3; echo second"],
            PopenConfig {
                stdin: Redirection::Pipe,
                stdout: Redirection::Pipe,
                ..Default::default()
            },
        )
        .unwrap();
        let mut comm = p.communicate_start(Some(big_input()));
        let mut collected = Vec::new();
        let mut log = vec![];
        // keep reading, as the documentation of Communicator::read suggests,
        // using the data carried by the error
        for _ in 0..20 {
            match comm.read() {
                Ok((out, _)) => {
                    let out = out.unwrap();
                    log.push(format!("Ok({:?})", String::from_utf8_lossy(&out)));
                    let done = out.is_empty();
                    collected.extend(out);
                    if done {
                        break;
                    }
                }
                Err(e) => {
                    let out = e.capture.0.clone().unwrap();
                    log.push(format!("Err({:?}, {:?})", e.kind(), String::from_utf8_lossy(&out)));
                    collected.extend(out);
                    thread::sleep(Duration::from_millis(50));
                }
            }
        }
        let status = p.wait().unwrap();
        (collected, log, status)
    });
    let (collected, log, status) = res.expect("hung");
    println!("reads: {:?}\nchild exit status: {:?}", log, status);
    assert_eq!(
        String::from_utf8_lossy(&collected),
        "first\nsecond\n",
        "output written by the child was not returned"
    );
}
