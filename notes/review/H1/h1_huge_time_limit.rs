// Demonstration for C04 ("for any t from zero up to durations far beyond the
// OS poll limit"): a very large time limit makes Communicator::read panic
// instead of behaving like "no limit in practice".
#![cfg(unix)]

use std::time::Duration;

use subprocess::{Exec, Redirection};

fn read_with_limit(limit: Duration) -> std::thread::Result<Vec<u8>> {
    std::panic::catch_unwind(move || {
        let mut comm = Exec::cmd("echo")
            .arg("hello")
            .stdout(Redirection::Pipe)
            .communicate()
            .unwrap()
            .limit_time(limit);
        let (out, _) = comm.read().unwrap();
        out.unwrap()
    })
}

#[test]
fn limit_beyond_poll_range_works() {
    // 2^31 ms and a century: handled
    assert_eq!(read_with_limit(Duration::from_millis(1 << 31)).unwrap(), b"hello\n");
    assert_eq!(read_with_limit(Duration::from_secs(100 * 365 * 86400)).unwrap(), b"hello\n");
}

#[test]
fn limit_duration_max() {
    let r = read_with_limit(Duration::MAX);
    assert_eq!(r.expect("read() panicked"), b"hello\n");
}

#[test]
fn limit_u64_max_seconds() {
    let r = read_with_limit(Duration::from_secs(u64::MAX));
    assert_eq!(r.expect("read() panicked"), b"hello\n");
}

#[test]
fn limit_i64_max_seconds() {
    let r = read_with_limit(Duration::from_secs(i64::MAX as u64));
    assert_eq!(r.expect("read() panicked"), b"hello\n");
}
