use subprocess::{Popen, PopenConfig, Redirection};

#[test]
fn later_entry_naming_a_wins_over_earlier_name_containing_equals() {
    let mut p = Popen::create(
        &["sh", "-c", "echo \"$A\""],
        PopenConfig {
            stdout: Redirection::Pipe,
            env: Some(vec![("A=x".into(), "1".into()), ("A".into(), "2".into())]),
            ..Default::default()
        },
    )
    .unwrap();
    let (out, _) = p.communicate(None).unwrap();
    assert_eq!(out.unwrap().trim(), "2");
}

#[test]
fn a_name_containing_equals_is_not_turned_into_another_variable() {
    // requested: one variable called "A=B" with value "C"; what arrives is variable A = "B=C"
    let r = Popen::create(
        &["sh", "-c", "echo \"[$A]\""],
        PopenConfig {
            stdout: Redirection::Pipe,
            env: Some(vec![("A=B".into(), "C".into())]),
            ..Default::default()
        },
    );
    match r {
        Err(_) => (), // refused: fine
        Ok(mut p) => {
            let (out, _) = p.communicate(None).unwrap();
            assert_eq!(out.unwrap().trim(), "[]", "the child got a variable A nobody asked for");
        }
    }
}
