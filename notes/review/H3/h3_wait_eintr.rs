// Demonstration for C09 / C12: the blocking waitpid() behind Popen::wait() and
// Popen::drop() is not retried when it is interrupted by a signal (EINTR).
//  * wait() then returns Err(Interrupted) although the child is alive and well
//    (C09: wait reports the child's real termination cause);
//  * drop() uses `self.wait().ok()`, so the error is swallowed, the Popen is
//    gone and the child is never reaped: a zombie remains (C12).
// The signal handler is installed without SA_RESTART, which is what e.g.
// sigaction() users get by default and what every handler gets for SIGCHLD-
// style "wake me up" designs.
use std::thread;
use std::time::{Duration, Instant};

use subprocess::{Exec, ExitStatus};

extern "C" fn on_usr1(_sig: libc::c_int) {}

fn install_handler_without_sa_restart() {
    unsafe {
        let mut sa: libc::sigaction = std::mem::zeroed();
        sa.sa_sigaction = on_usr1 as *const () as usize;
        sa.sa_flags = 0; // no SA_RESTART
        libc::sigemptyset(&mut sa.sa_mask);
        assert_eq!(libc::sigaction(libc::SIGUSR1, &sa, std::ptr::null_mut()), 0);
    }
}

// send SIGUSR1 to the calling thread after `after`
fn poke_me(after: Duration) -> thread::JoinHandle<()> {
    let me = unsafe { libc::pthread_self() } as usize;
    thread::spawn(move || {
        thread::sleep(after);
        unsafe {
            libc::pthread_kill(me as libc::pthread_t, libc::SIGUSR1);
        }
    })
}

fn proc_state(pid: u32) -> Option<String> {
    let stat = std::fs::read_to_string(format!("/proc/{}/stat", pid)).ok()?;
    let after = stat.rsplit(") ").next()?.to_string();
    Some(after.split(' ').next()?.to_string())
}

#[test]
fn wait_is_interrupted_by_a_signal() {
    install_handler_without_sa_restart();
    let mut p = Exec::cmd("sleep").arg("1").popen().unwrap();
    let poker = poke_me(Duration::from_millis(200));
    let t0 = Instant::now();
    let r = p.wait();
    println!("wait() returned {:?} after {:?}; pid() = {:?}", r, t0.elapsed(), p.pid());
    poker.join().unwrap();
    // the child runs for 1 s and exits 0: that is what wait() must report
    let ok = matches!(r, Ok(ExitStatus::Exited(0)));
    let _ = p.wait();
    assert!(ok, "wait() did not report the child's exit status: {:?}", r);
}

#[test]
fn drop_interrupted_by_a_signal_leaves_a_zombie() {
    install_handler_without_sa_restart();
    let p = Exec::cmd("sleep").arg("1").popen().unwrap();
    let pid = p.pid().unwrap();
    let poker = poke_me(Duration::from_millis(200));
    let t0 = Instant::now();
    drop(p); // must wait for the child (about 1 s) and reap it
    let took = t0.elapsed();
    poker.join().unwrap();
    println!("drop() took {:?}; child state right after drop: {:?}", took, proc_state(pid));
    thread::sleep(Duration::from_millis(1500));
    let state = proc_state(pid);
    println!("child {} state 1.5 s later: {:?} (Z = zombie, None = reaped)", pid, state);
    // reap it by hand so that the test leaves nothing behind
    unsafe {
        let mut st = 0;
        libc::waitpid(pid as libc::pid_t, &mut st, 0);
    }
    assert!(
        state.is_none(),
        "the child of a dropped, non-detached Popen was not reaped: state {:?}",
        state
    );
}
