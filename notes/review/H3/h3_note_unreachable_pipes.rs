// Observations only, NOT filed as defects: configurations in which the caller
// asks for a pipe that the chosen terminator then makes unreachable.  C12's
// deadlock clause speaks of "that very pipe" of the adapter, and join() is not a
// drop, so these are outside the letter of the property.
use std::io::Read;
use std::sync::mpsc;
use std::thread;
use std::time::Duration;
use subprocess::{Exec, Redirection};

fn within_5s<F: FnOnce() + Send + 'static>(f: F) -> bool {
    let (tx, rx) = mpsc::channel();
    thread::spawn(move || { f(); let _ = tx.send(()); });
    let ok = rx.recv_timeout(Duration::from_secs(5)).is_ok();
    if !ok {
        let _ = std::process::Command::new("pkill").arg("-P").arg(std::process::id().to_string()).status();
        let _ = rx.recv_timeout(Duration::from_secs(5));
    }
    ok
}

#[test]
fn stream_stdout_with_unreachable_stderr_pipe() {
    // child fills the stderr pipe nobody can read; dropping the stdout adapter waits forever
    let ok = within_5s(|| {
        let mut s = Exec::shell("echo hi; exec head -c 200000 /dev/zero >&2")
            .stderr(Redirection::Pipe)
            .stream_stdout()
            .unwrap();
        let mut b = [0u8; 3];
        s.read_exact(&mut b).unwrap();
        drop(s);
    });
    println!("stream_stdout + stderr(Pipe): drop returned within 5 s: {}", ok);
    assert!(ok);
}

#[test]
fn join_with_stdin_pipe() {
    let ok = within_5s(|| {
        let _ = Exec::cmd("cat").stdin(Redirection::Pipe).join();
    });
    println!("join + stdin(Pipe): returned within 5 s: {}", ok);
    assert!(ok);
}
