// Sanity checks that PASS: things examined and found in order.
use std::time::{Duration, Instant};
use subprocess::unix::PopenExt;
use subprocess::{Exec, ExitStatus, Popen, PopenConfig, Redirection};

fn status_field(s: &str, key: &str) -> u64 {
    let line = s.lines().find(|l| l.starts_with(key)).unwrap();
    u64::from_str_radix(line.split_whitespace().nth(1).unwrap(), 16).unwrap()
}

#[test]
fn c18_child_signal_state_clean() {
    unsafe {
        let mut set: libc::sigset_t = std::mem::zeroed();
        libc::sigfillset(&mut set);
        libc::pthread_sigmask(libc::SIG_SETMASK, &set, std::ptr::null_mut());
    }
    let out = Exec::cmd("cat").arg("/proc/self/status").capture().unwrap().stdout_str();
    assert_eq!(status_field(&out, "SigBlk:"), 0, "{}", out);
    assert_eq!(status_field(&out, "SigIgn:") & (1 << 12), 0, "{}", out);
    // every stage of a pipeline: stage 1 prints to stderr file, stage 2 and 3 too
    let st = (Exec::shell("cat /proc/self/status >&2; echo") | Exec::shell("cat /proc/self/status >&2; cat") | Exec::shell("cat /proc/self/status >&2; cat"))
        .capture()
        .unwrap();
    assert!(st.success());
    let all = st.stderr_str();
    let blks: Vec<_> = all.lines().filter(|l| l.starts_with("SigBlk:")).collect();
    let igns: Vec<_> = all.lines().filter(|l| l.starts_with("SigIgn:")).collect();
    assert_eq!(blks.len(), 3);
    for b in blks { assert_eq!(u64::from_str_radix(b.split_whitespace().nth(1).unwrap(), 16).unwrap(), 0); }
    for b in igns { assert_eq!(u64::from_str_radix(b.split_whitespace().nth(1).unwrap(), 16).unwrap() & (1<<12), 0); }
    // parent ignores SIGPIPE (rust runtime) - confirm
    let me = std::fs::read_to_string("/proc/self/status").unwrap();
    assert_ne!(status_field(&me, "SigIgn:") & (1 << 12), 0);
}


#[test]
fn c09_codes_signals_stability() {
    for code in [0u32, 1, 2, 126, 127, 128, 129, 200, 254, 255] {
        let mut p = Exec::shell(format!("exit {}", code)).popen().unwrap();
        let s = p.wait().unwrap();
        assert_eq!(s, ExitStatus::Exited(code));
        assert_eq!(p.poll(), Some(s));
        assert_eq!(p.wait_timeout(Duration::from_secs(1)).unwrap(), Some(s));
        assert_eq!(p.pid(), None);
        assert_eq!(p.exit_status(), Some(s));
        assert!(p.terminate().is_ok() && p.kill().is_ok() && p.send_signal(libc::SIGUSR1).is_ok());
    }
    for sig in [libc::SIGHUP, libc::SIGINT, libc::SIGQUIT, libc::SIGILL, libc::SIGABRT, libc::SIGFPE, libc::SIGKILL, libc::SIGSEGV, libc::SIGPIPE, libc::SIGALRM, libc::SIGTERM, libc::SIGUSR1, libc::SIGUSR2, libc::SIGBUS, libc::SIGXCPU, libc::SIGSYS, 34, 64] {
        let mut p = Exec::cmd("sleep").arg("10").popen().unwrap();
        assert_eq!(p.poll(), None);
        p.send_signal(sig).unwrap();
        let s = p.wait().unwrap();
        assert_eq!(s, ExitStatus::Signaled(sig as u8), "sig {}", sig);
        assert_eq!(p.poll(), Some(s));
    }
}

#[test]
fn c09_external_reap_is_undetermined() {
    let mut p = Exec::cmd("true").popen().unwrap();
    let pid = p.pid().unwrap();
    unsafe { let mut st = 0; assert_eq!(libc::waitpid(pid as i32, &mut st, 0), pid as i32); }
    assert_eq!(p.poll(), Some(ExitStatus::Undetermined));
    assert_eq!(p.wait().unwrap(), ExitStatus::Undetermined);
    assert!(p.kill().is_ok());
    let mut p = Exec::cmd("true").popen().unwrap();
    let pid = p.pid().unwrap();
    unsafe { let mut st = 0; libc::waitpid(pid as i32, &mut st, 0); }
    assert_eq!(p.wait().unwrap(), ExitStatus::Undetermined);
    let mut p = Exec::cmd("true").popen().unwrap();
    let pid = p.pid().unwrap();
    unsafe { let mut st = 0; libc::waitpid(pid as i32, &mut st, 0); }
    assert_eq!(p.wait_timeout(Duration::from_secs(5)).unwrap(), Some(ExitStatus::Undetermined));
}

#[test]
fn c11_timing() {
    let mut p = Exec::cmd("sleep").arg("0.35").popen().unwrap();
    let t = Instant::now();
    assert_eq!(p.poll(), None);
    assert!(t.elapsed() < Duration::from_millis(20));
    for d in [0u64, 1, 50, 120] {
        let t = Instant::now();
        assert_eq!(p.wait_timeout(Duration::from_millis(d)).unwrap(), None);
        let e = t.elapsed();
        assert!(e >= Duration::from_millis(d) && e < Duration::from_millis(d + 30), "{:?}", e);
    }
    let t = Instant::now();
    let s = p.wait_timeout(Duration::from_secs(40 * 24 * 3600)).unwrap();
    assert_eq!(s, Some(ExitStatus::Exited(0)));
    assert!(t.elapsed() < Duration::from_millis(400));
    let t = Instant::now();
    assert_eq!(p.wait_timeout(Duration::from_secs(1000)).unwrap(), s);
    assert!(t.elapsed() < Duration::from_millis(5));
}

#[test]
fn c12_adapters_drop() {
    use std::io::{Read, Write};
    // unbounded writer, dropped with data pending
    let t = Instant::now();
    {
        let mut s = Exec::cmd("yes").stream_stdout().unwrap();
        let mut b = [0u8; 10];
        s.read_exact(&mut b).unwrap();
    }
    {
        let mut s = Exec::shell("yes >&2").stream_stderr().unwrap();
        let mut b = [0u8; 10];
        s.read_exact(&mut b).unwrap();
    }
    {
        let mut s = (Exec::cmd("yes") | Exec::cmd("cat") | Exec::cmd("cat")).stream_stdout().unwrap();
        let mut b = [0u8; 10];
        s.read_exact(&mut b).unwrap();
    }
    {
        let mut s = Exec::cmd("cat").stdout(subprocess::NullFile).stream_stdin().unwrap();
        s.write_all(b"x").unwrap();
    }
    {
        let mut s = (Exec::cmd("cat") | Exec::cmd("cat")).stdout(subprocess::NullFile).stream_stdin().unwrap();
        s.write_all(b"x").unwrap();
    }
    {
        // popen with stdin pipe dropped
        let _p = Popen::create(&["cat"], PopenConfig { stdin: Redirection::Pipe, stdout: Redirection::File(std::fs::File::create("/dev/null").unwrap()), ..Default::default() }).unwrap();
    }
    assert!(t.elapsed() < Duration::from_secs(5));
    // no zombies: no children at all left
    let me = std::process::id().to_string();
    for e in std::fs::read_dir("/proc").unwrap() {
        let name = e.unwrap().file_name().into_string().unwrap();
        if name.parse::<u32>().is_err() { continue; }
        if let Ok(stat) = std::fs::read_to_string(format!("/proc/{}/stat", name)) {
            let after = stat.rsplit(") ").next().unwrap().to_string();
            let ppid = after.split(' ').nth(1).unwrap().to_string();
            assert_ne!(ppid, me, "leftover child: {}", stat);
        }
    }
}
