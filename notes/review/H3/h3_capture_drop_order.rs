// Demonstration for C12: Exec::capture() / Pipeline::capture() hang in their own
// error path.  When comm.read() fails (here: EPIPE while feeding stdin, because
// the child closed its stdin early), `?` leaves the function and the locals
// `(comm, p)` are dropped in reverse order: the Popen first (which waits for the
// child) and only then the Communicator that still holds the read end of the
// child's stdout pipe.  A child that still has output to write is blocked on
// that pipe, which nobody will read any more -> the wait never returns.
use std::sync::mpsc;
use std::thread;
use std::time::Duration;

use subprocess::{Exec, Redirection};

// child: closes its stdin at once, then writes ~1 MB (bounded!) to stdout, exits 0
const CHILD: &str = "exec 0<&-; exec head -c 1000000 /dev/zero";

// Runs `f` on a helper thread.  Returns Some(result) if it finished within
// 10 s.  Otherwise prints where everybody is stuck, kills the direct children of
// this process (which un-sticks the wait), prints what `f` returns then, and
// returns None.
fn run_with_watchdog<F: FnOnce() -> String + Send + 'static>(f: F) -> Option<String> {
    let (tx, rx) = mpsc::channel();
    thread::spawn(move || {
        let r = f();
        let _ = tx.send(r);
    });
    match rx.recv_timeout(Duration::from_secs(10)) {
        Ok(r) => Some(r),
        Err(_) => {
            diagnose();
            cleanup();
            let late = rx.recv_timeout(Duration::from_secs(10));
            println!("  after killing the child by hand the call returned: {:?}", late);
            None
        }
    }
}

fn read(path: String) -> String {
    std::fs::read_to_string(path).unwrap_or_default().trim().to_string()
}

fn diagnose() {
    let me = std::process::id();
    println!("  STUCK after 10 s.  Threads of this process (tid: kernel wait channel):");
    for e in std::fs::read_dir("/proc/self/task").unwrap() {
        let tid = e.unwrap().file_name().into_string().unwrap();
        println!(
            "    {} [{}]: wchan={} syscall={}",
            tid,
            read(format!("/proc/self/task/{}/comm", tid)),
            read(format!("/proc/self/task/{}/wchan", tid)),
            read(format!("/proc/self/task/{}/syscall", tid))
                .split(' ')
                .next()
                .unwrap_or("")
        );
    }
    println!("  Children of this process:");
    for e in std::fs::read_dir("/proc").unwrap() {
        let name = e.unwrap().file_name().into_string().unwrap();
        if name.parse::<u32>().is_err() {
            continue;
        }
        let stat = read(format!("/proc/{}/stat", name));
        // pid (comm) state ppid ...
        let after = stat.rsplit(") ").next().unwrap_or("").to_string();
        let mut it = after.split(' ');
        let state = it.next().unwrap_or("").to_string();
        let ppid = it.next().unwrap_or("").to_string();
        if ppid == me.to_string() {
            println!(
                "    pid {} cmdline={:?} state={} wchan={}",
                name,
                read(format!("/proc/{}/cmdline", name)).replace('\0', " "),
                state,
                read(format!("/proc/{}/wchan", name))
            );
        }
    }
}

fn cleanup() {
    // kill the stuck children so that the test binary leaves nothing behind
    // (direct children of this test process only)
    let _ = std::process::Command::new("pkill")
        .arg("-P")
        .arg(std::process::id().to_string())
        .status();
}

#[test]
fn exec_capture_error_path_must_not_hang() {
    let r = run_with_watchdog(|| {
        // 1 MB of input can never be written completely: the child does not read
        let input = vec![b'x'; 1_000_000];
        let res = Exec::cmd("sh").arg("-c").arg(CHILD).stdin(input).capture();
        format!("{:?}", res.map(|c| (c.stdout.len(), c.exit_status)))
    });
    println!("capture returned: {:?}", r);
    assert!(
        r.is_some(),
        "Exec::capture() did not return within 10 s: it is waiting for a child \
         that is blocked writing to the stdout pipe capture() itself still holds"
    );
}

#[test]
fn pipeline_capture_error_path_must_not_hang() {
    let r = run_with_watchdog(|| {
        let input = vec![b'x'; 1_000_000];
        let res = (Exec::cmd("sh").arg("-c").arg(CHILD) | Exec::cmd("cat"))
            .stdin(input)
            .capture();
        format!("{:?}", res.map(|c| (c.stdout.len(), c.exit_status)))
    });
    println!("pipeline capture returned: {:?}", r);
    assert!(r.is_some(), "Pipeline::capture() did not return within 10 s");
}

// A more everyday shape of the same thing: the first command of a pipeline does
// not read its input (`true`), a later one produces output on its own.
#[test]
fn pipeline_capture_first_stage_ignores_input_must_not_hang() {
    let r = run_with_watchdog(|| {
        let input = vec![b'x'; 1_000_000];
        let res = (Exec::cmd("true")
            | Exec::shell("sleep 0.3; exec head -c 1000000 /dev/zero"))
        .stdin(input)
        .capture();
        format!("{:?}", res.map(|c| (c.stdout.len(), c.exit_status)))
    });
    println!("pipeline (true | producer) capture returned: {:?}", r);
    assert!(r.is_some(), "Pipeline::capture() did not return within 10 s");
}

// Control: the very same child and input through the lower-level API, where the
// Communicator is a temporary that is dropped before the Popen, returns at once
// with the EPIPE error and the child is reaped by drop.
#[test]
fn control_popen_communicate_same_child_returns() {
    let r = run_with_watchdog(|| {
        let input = vec![b'x'; 1_000_000];
        let mut p = Exec::cmd("sh")
            .arg("-c")
            .arg(CHILD)
            .stdin(Redirection::Pipe)
            .stdout(Redirection::Pipe)
            .popen()
            .unwrap();
        let res = p.communicate_bytes(Some(&input));
        let s = format!("{:?}", res.map(|(o, _)| o.map(|o| o.len())));
        drop(p);
        s
    });
    println!("control returned: {:?}", r);
    assert!(r.is_some());
}
