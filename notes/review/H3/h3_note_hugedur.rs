// Observation only (outside the "zero to weeks" range of C11): the deadline is
// computed as Instant::now() + dur, which panics for durations near Duration::MAX.
use std::time::Duration;
use subprocess::Exec;
#[test]
fn wait_timeout_duration_max() {
    let mut p = Exec::cmd("true").popen().unwrap();
    for d in [Duration::from_secs(100 * 365 * 86400), Duration::from_secs(u32::MAX as u64 * 1000), Duration::from_secs(i64::MAX as u64 / 2)] {
        println!("{:?} -> {:?}", d, p.wait_timeout(d));
    }
    let mut p = Exec::cmd("true").popen().unwrap();
    let r = std::panic::catch_unwind(std::panic::AssertUnwindSafe(|| p.wait_timeout(Duration::MAX)));
    println!("Duration::MAX -> {:?}", r.as_ref().map_err(|e| e.downcast_ref::<&str>().map(|s| s.to_string())));
    let _ = p.wait();
    assert!(r.is_ok());
}
