// C13: "the pipeline's configured input reaches only the first command and its
// configured output receives only the last command's output".
//
// Resource state: the calling process runs with standard input (or output)
// closed, as daemons commonly do.  A file the caller then opens gets the free
// descriptor 0 (or 1).  Rust opens files close-on-exec.  The child set-up in
// Popen::do_exec skips dup2() when the descriptor already has the right number
// and never clears close-on-exec, so exec() closes it and the command runs
// with that stream CLOSED instead of connected to the file.
//
// Everything is in one #[test] so that nothing else in this process touches
// descriptors 0/1 while they are closed; they are restored before asserting.

extern crate libc;
extern crate subprocess;
extern crate tempfile;

use std::fs::{self, File};
use std::os::unix::io::AsRawFd;
use std::sync::mpsc;
use std::thread;
use std::time::Duration;

use subprocess::Exec;

struct ClosedFds(Vec<(i32, i32)>);

impl ClosedFds {
    fn close(fds: &[i32]) -> ClosedFds {
        let mut saved = vec![];
        for &fd in fds {
            let copy = unsafe { libc::fcntl(fd, libc::F_DUPFD_CLOEXEC, 100) };
            assert!(copy >= 100, "cannot save descriptor {}", fd);
            assert_eq!(unsafe { libc::close(fd) }, 0);
            saved.push((fd, copy));
        }
        ClosedFds(saved)
    }
}

impl Drop for ClosedFds {
    fn drop(&mut self) {
        for &(fd, copy) in &self.0 {
            unsafe {
                libc::dup2(copy, fd);
                libc::close(copy);
            }
        }
    }
}

fn with_watchdog<T: Send + 'static>(f: impl FnOnce() -> T + Send + 'static) -> T {
    let (tx, rx) = mpsc::channel();
    thread::spawn(move || {
        let _ = tx.send(f());
    });
    rx.recv_timeout(Duration::from_secs(20))
        .expect("watchdog: timed out")
}

#[test]
fn file_redirection_with_closed_standard_descriptors() {
    let dir = tempfile::tempdir().unwrap();
    let in_path = dir.path().join("input.txt");
    let out_path = dir.path().join("output.txt");
    let out2_path = dir.path().join("output2.txt");
    fs::write(&in_path, "line one\nline two\n").unwrap();

    // --- scenario A: stdin closed, the pipeline's input file is descriptor 0
    let (a_fd, a_result) = {
        let _guard = ClosedFds::close(&[0]);
        let input = File::open(&in_path).unwrap();
        let fd = input.as_raw_fd();
        let res = with_watchdog(move || {
            (Exec::cmd("cat") | Exec::cmd("tr").arg("a-z").arg("A-Z"))
                .stdin(input)
                .capture()
                .map(|c| (c.stdout_str(), c.stderr_str()))
                .map_err(|e| format!("{:?}", e))
        });
        (fd, res)
    };

    // --- scenario B: stdout closed, the pipeline's output file is descriptor 1
    let (b_fd, b_result) = {
        let _guard = ClosedFds::close(&[1]);
        let output = File::create(&out_path).unwrap();
        let fd = output.as_raw_fd();
        let res = with_watchdog(move || {
            (Exec::cmd("echo").arg("hello") | Exec::cmd("tr").arg("a-z").arg("A-Z"))
                .stdout(output)
                .join()
                .map_err(|e| format!("{:?}", e))
        });
        (fd, res)
    };
    let b_file = fs::read_to_string(&out_path).unwrap();

    // --- scenario C: stdin closed, the pipeline's OUTPUT file is descriptor 0.
    // The last command has both streams redirected; dup2(pipe, 0) destroys
    // the output file before it is duplicated onto descriptor 1.
    let (c_fd, c_result) = {
        let _guard = ClosedFds::close(&[0]);
        let output = File::create(&out2_path).unwrap();
        let fd = output.as_raw_fd();
        let res = with_watchdog(move || {
            (Exec::cmd("echo").arg("hello") | Exec::cmd("tr").arg("a-z").arg("A-Z"))
                .stdout(output)
                .join()
                .map_err(|e| format!("{:?}", e))
        });
        (fd, res)
    };
    let c_file = fs::read_to_string(&out2_path).unwrap();

    // descriptors are restored here; now report and check
    println!("A: input file was fd {}, capture -> {:?}", a_fd, a_result);
    println!(
        "B: output file was fd {}, join -> {:?}, file content {:?}",
        b_fd, b_result, b_file
    );
    println!(
        "C: output file was fd {}, join -> {:?}, file content {:?}",
        c_fd, c_result, c_file
    );

    // preconditions of the scenario
    assert_eq!(a_fd, 0);
    assert_eq!(b_fd, 1);
    assert_eq!(c_fd, 0);

    let mut failures = vec![];
    match &a_result {
        Ok((out, _)) if out == "LINE ONE\nLINE TWO\n" => (),
        other => failures.push(format!(
            "A: the input file did not reach the first command: {:?}",
            other
        )),
    }
    if b_file != "HELLO\n" {
        failures.push(format!(
            "B: the output file did not receive the last command's output: {:?} (join: {:?})",
            b_file, b_result
        ));
    }
    if c_file != "HELLO\n" {
        failures.push(format!(
            "C: the output file did not receive the last command's output: {:?} (join: {:?})",
            c_file, c_result
        ));
    }
    assert!(failures.is_empty(), "{:#?}", failures);
}
