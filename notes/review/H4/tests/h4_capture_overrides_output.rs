// C13: "its configured output receives only the last command's output", for
// all choices of pipeline stdout (inherit/pipe/FILE) and for join AND capture.
//
// Pipeline::capture (and Pipeline::communicate) silently replace a configured
// stdout file - and a configured stderr_to file - with their own pipes, so the
// configured output receives nothing.  Exec::capture, in contrast, honours a
// configured file.

extern crate subprocess;
extern crate tempfile;

use std::fs::{self, File};

use subprocess::Exec;

#[test]
fn pipeline_capture_with_stdout_file() {
    let dir = tempfile::tempdir().unwrap();

    // reference behaviour: a single Exec honours the file under capture()
    let single_path = dir.path().join("single.txt");
    let single = Exec::cmd("echo")
        .arg("hello")
        .stdout(File::create(&single_path).unwrap())
        .capture()
        .unwrap();
    let single_file = fs::read_to_string(&single_path).unwrap();
    println!(
        "Exec:     file {:?}, captured stdout {:?}",
        single_file,
        single.stdout_str()
    );
    assert_eq!(single_file, "hello\n");

    // the same pipeline with join(): the file receives the output
    let join_path = dir.path().join("join.txt");
    (Exec::cmd("echo").arg("hello") | Exec::cmd("tr").arg("a-z").arg("A-Z"))
        .stdout(File::create(&join_path).unwrap())
        .join()
        .unwrap();
    let join_file = fs::read_to_string(&join_path).unwrap();
    println!("Pipeline: join    -> file {:?}", join_file);
    assert_eq!(join_file, "HELLO\n");

    // capture(): the configured file is silently dropped
    let cap_path = dir.path().join("capture.txt");
    let cap = (Exec::cmd("echo").arg("hello") | Exec::cmd("tr").arg("a-z").arg("A-Z"))
        .stdout(File::create(&cap_path).unwrap())
        .capture()
        .unwrap();
    let cap_file = fs::read_to_string(&cap_path).unwrap();
    println!(
        "Pipeline: capture -> file {:?}, captured stdout {:?}",
        cap_file,
        cap.stdout_str()
    );
    assert_eq!(
        cap_file, "HELLO\n",
        "the configured output file must receive the last command's output"
    );
}

#[test]
fn pipeline_capture_with_stderr_file() {
    let dir = tempfile::tempdir().unwrap();
    let err_path = dir.path().join("err.txt");
    let cap = (Exec::shell("echo one >&2; echo data") | Exec::shell("echo two >&2; cat"))
        .stderr_to(File::create(&err_path).unwrap())
        .capture()
        .unwrap();
    let err_file = fs::read_to_string(&err_path).unwrap();
    println!(
        "stderr_to file {:?}, captured stderr {:?}",
        err_file,
        cap.stderr_str()
    );
    let mut lines: Vec<_> = err_file.lines().collect();
    lines.sort();
    assert_eq!(
        lines,
        ["one", "two"],
        "the shared standard-error sink must receive every stage's error output"
    );
}
