// C14: "If the k-th command of a pipeline cannot be started, starting the
// pipeline returns that error, no later command is started".
// C13: the last command's output contains only what the stages produced.
//
// Resource state: the calling process runs with descriptors 0 and 1 closed
// (a daemon).  Popen::os_start creates the exec-status pipe first, so it gets
// descriptors (0, 1): its WRITE end is descriptor 1.  In the child, do_exec
// then does dup2(stdout_pipe, 1) for a command whose stdout is redirected -
// which every non-last pipeline stage is - and thereby destroys the write end
// of the exec-status pipe.  When exec fails, the 4-byte error code is written
// to descriptor 1, i.e. INTO THE COMMAND'S STDOUT PIPE, and the parent sees a
// clean end-of-file on the status pipe and reports success.
//
// One #[test] only, so nothing else touches descriptors 0/1 while closed.

extern crate libc;
extern crate subprocess;

use std::io::Read;
use std::sync::mpsc;
use std::thread;
use std::time::Duration;

use subprocess::{Exec, Redirection};

struct ClosedFds(Vec<(i32, i32)>);

impl ClosedFds {
    fn close(fds: &[i32]) -> ClosedFds {
        let mut saved = vec![];
        for &fd in fds {
            let copy = unsafe { libc::fcntl(fd, libc::F_DUPFD_CLOEXEC, 100) };
            assert!(copy >= 100, "cannot save descriptor {}", fd);
            assert_eq!(unsafe { libc::close(fd) }, 0);
            saved.push((fd, copy));
        }
        ClosedFds(saved)
    }
}

impl Drop for ClosedFds {
    fn drop(&mut self) {
        for &(fd, copy) in &self.0 {
            unsafe {
                libc::dup2(copy, fd);
                libc::close(copy);
            }
        }
    }
}

fn with_watchdog<T: Send + 'static>(f: impl FnOnce() -> T + Send + 'static) -> T {
    let (tx, rx) = mpsc::channel();
    thread::spawn(move || {
        let _ = tx.send(f());
    });
    rx.recv_timeout(Duration::from_secs(20))
        .expect("watchdog: timed out")
}

const MISSING: &str = "/nonexistent/no-such-command-h4";

#[test]
fn failing_first_stage_with_descriptors_0_and_1_closed() {
    // control: with the standard descriptors open the error is reported
    let control = (Exec::cmd(MISSING) | Exec::cmd("od").arg("-An").arg("-tx1"))
        .stream_stdout()
        .map(|_| ())
        .map_err(|e| format!("{:?}", e));

    let (pipeline, popen) = {
        let _guard = ClosedFds::close(&[0, 1]);
        with_watchdog(|| {
            // the pipeline: k = 0 fails, the second command must never start
            let pipeline = (Exec::cmd(MISSING) | Exec::cmd("od").arg("-An").arg("-tx1"))
                .stream_stdout()
                .map(|mut stream| {
                    let mut s = String::new();
                    stream.read_to_string(&mut s).unwrap();
                    s
                })
                .map_err(|e| format!("{:?}", e));
            // the same thing seen on a single command
            let popen = Exec::cmd(MISSING)
                .stdout(Redirection::Pipe)
                .capture()
                .map(|c| (c.stdout, c.exit_status))
                .map_err(|e| format!("{:?}", e));
            (pipeline, popen)
        })
    };

    println!("control (descriptors open):   {:?}", control);
    println!("pipeline (0 and 1 closed):    {:?}", pipeline);
    println!("single command (0,1 closed):  {:?}", popen);

    assert!(control.is_err(), "control must report the error");
    assert!(
        pipeline.is_err(),
        "starting the pipeline must return the error of the command that cannot be started, got {:?}",
        pipeline
    );
    assert!(popen.is_err());
}
