// C20 (Windows command-line assembly), shown with a self-contained copy because
// the Windows code is not compiled on Linux.
//
// `assemble_cmdline` / `append_quoted` below are verbatim copies of the
// functions in src/popen.rs (mod os, cfg(windows)), with OsString replaced by
// Vec<u16> (what encode_wide() yields).
//
// `parse_cmdline` is the Microsoft C runtime algorithm (UCRT argv_parsing.cpp,
// parse_command_line), which is also what the documentation "Parsing C
// command-line arguments" describes and what CommandLineToArgvW does for every
// string produced here: the FIRST argument (the program name) is parsed with
// different rules - a quote only toggles "in quotes" and backslashes are
// always literal - while the 2n / 2n+1 backslash rules apply to the remaining
// arguments only.
//
// append_quoted applies the general rules to argv[0] as well, so an argv[0]
// that needs quoting and has backslashes at its end does not round-trip
// (e.g. `C:\Program Files\` arrives as `C:\Program Files\\`).

fn wide(s: &str) -> Vec<u16> {
    s.encode_utf16().collect()
}

// ---- copy of src/popen.rs ------------------------------------------------

fn assemble_cmdline(argv: Vec<Vec<u16>>) -> Result<Vec<u16>, &'static str> {
    let mut cmdline = vec![];
    let mut is_first = true;
    for arg in argv {
        if !is_first {
            cmdline.push(' ' as u16);
        } else {
            is_first = false;
        }
        if arg.iter().any(|&c| c == 0) {
            return Err("ERROR_BAD_PATHNAME");
        }
        append_quoted(&arg, &mut cmdline);
    }
    Ok(cmdline)
}

fn append_quoted(arg: &[u16], cmdline: &mut Vec<u16>) {
    if !arg.is_empty()
        && !arg.iter().any(|&c| {
            c == ' ' as u16
                || c == '\t' as u16
                || c == '\n' as u16
                || c == '\x0b' as u16
                || c == '\"' as u16
        })
    {
        cmdline.extend(arg.iter().cloned());
        return;
    }
    cmdline.push('"' as u16);

    let arg: Vec<_> = arg.to_vec();
    let mut i = 0;
    while i < arg.len() {
        let mut num_backslashes = 0;
        while i < arg.len() && arg[i] == '\\' as u16 {
            i += 1;
            num_backslashes += 1;
        }

        if i == arg.len() {
            for _ in 0..num_backslashes * 2 {
                cmdline.push('\\' as u16);
            }
            break;
        } else if arg[i] == b'"' as u16 {
            for _ in 0..num_backslashes * 2 + 1 {
                cmdline.push('\\' as u16);
            }
            cmdline.push(arg[i]);
        } else {
            for _ in 0..num_backslashes {
                cmdline.push('\\' as u16);
            }
            cmdline.push(arg[i]);
        }
        i += 1;
    }
    cmdline.push('"' as u16);
}

// ---- Microsoft parsing rules ----------------------------------------------

fn parse_cmdline(cmdline: &[u16]) -> Vec<Vec<u16>> {
    const SP: u16 = ' ' as u16;
    const TAB: u16 = '\t' as u16;
    const QUOTE: u16 = '"' as u16;
    const BSLASH: u16 = '\\' as u16;
    let at = |i: usize| -> u16 { cmdline.get(i).cloned().unwrap_or(0) };

    let mut args = vec![];
    let mut p = 0;

    // the program name
    let mut cur = vec![];
    let mut in_quotes = false;
    loop {
        let c = at(p);
        if c == 0 {
            break;
        }
        if !in_quotes && (c == SP || c == TAB) {
            p += 1;
            break;
        }
        if c == QUOTE {
            in_quotes = !in_quotes;
        } else {
            cur.push(c);
        }
        p += 1;
    }
    args.push(cur);

    // the remaining arguments
    in_quotes = false;
    loop {
        while at(p) == SP || at(p) == TAB {
            p += 1;
        }
        if at(p) == 0 {
            break;
        }
        let mut cur = vec![];
        loop {
            let mut copy_character = true;
            let mut numslash = 0;
            while at(p) == BSLASH {
                p += 1;
                numslash += 1;
            }
            if at(p) == QUOTE {
                if numslash % 2 == 0 {
                    if in_quotes && at(p + 1) == QUOTE {
                        p += 1; // "" inside a quoted string is a literal quote
                    } else {
                        copy_character = false;
                        in_quotes = !in_quotes;
                    }
                }
                numslash /= 2;
            }
            for _ in 0..numslash {
                cur.push(BSLASH);
            }
            if at(p) == 0 || (!in_quotes && (at(p) == SP || at(p) == TAB)) {
                break;
            }
            if copy_character {
                cur.push(at(p));
            }
            p += 1;
        }
        args.push(cur);
    }
    args
}

fn show(v: &[u16]) -> String {
    String::from_utf16_lossy(v)
}

fn all_strings(alphabet: &[char], max_len: usize) -> Vec<String> {
    let mut out = vec![String::new()];
    let mut frontier = vec![String::new()];
    for _ in 0..max_len {
        let mut next = vec![];
        for s in &frontier {
            for &c in alphabet {
                let mut t = s.clone();
                t.push(c);
                next.push(t);
            }
        }
        out.extend(next.iter().cloned());
        frontier = next;
    }
    out
}

#[test]
fn parser_model_sanity() {
    // examples from Microsoft's documentation ("Parsing C command-line arguments")
    let cases: Vec<(&str, Vec<&str>)> = vec![
        (r#"prog "abc" d e"#, vec!["prog", "abc", "d", "e"]),
        (r#"prog a\\b d"e f"g h"#, vec!["prog", r"a\\b", "de fg", "h"]),
        (r#"prog a\\\"b c d"#, vec!["prog", r#"a\"b"#, "c", "d"]),
        (r#"prog a\\\\"b c" d e"#, vec!["prog", r"a\\b c", "d", "e"]),
        (r#"prog a"b"" c d"#, vec!["prog", r#"ab" c d"#]),
    ];
    for (cmdline, expected) in cases {
        let got: Vec<String> = parse_cmdline(&wide(cmdline)).iter().map(|a| show(a)).collect();
        assert_eq!(got, expected, "{}", cmdline);
    }
}

#[test]
fn arguments_after_the_first_round_trip() {
    // control: the general rules are implemented correctly
    let alphabet = ['a', ' ', '\t', '\n', '"', '\\', 'é'];
    let strings = all_strings(&alphabet, 5);
    for s in &strings {
        let argv = vec![wide("prog"), wide(s), wide("z")];
        let cmdline = assemble_cmdline(argv.clone()).unwrap();
        assert_eq!(parse_cmdline(&cmdline), argv, "cmdline {:?}", show(&cmdline));
    }
    assert!(assemble_cmdline(vec![wide("prog"), wide("a\0b")]).is_err());
}

#[test]
fn first_argument_round_trips() {
    let alphabet = ['a', ' ', '\t', '\n', '"', '\\', 'é'];
    let strings = all_strings(&alphabet, 4);
    let mut with_quote = 0;
    let mut without_quote = vec![];
    for s in &strings {
        let argv = vec![wide(s), wide("z")];
        let cmdline = assemble_cmdline(argv.clone()).unwrap();
        let back = parse_cmdline(&cmdline);
        if back != argv {
            if s.contains('"') {
                // a program name with a quote cannot be expressed at all;
                // it is passed on garbled instead of being rejected
                with_quote += 1;
            } else {
                without_quote.push(format!(
                    "argv[0]={:?} -> cmdline {:?} -> parsed {:?}",
                    s,
                    show(&cmdline),
                    back.iter().map(|a| show(a)).collect::<Vec<_>>()
                ));
            }
        }
    }
    println!(
        "{} of {} vectors fail to round-trip ({} contain a quote, {} do not)",
        with_quote + without_quote.len(),
        strings.len(),
        with_quote,
        without_quote.len()
    );
    for line in without_quote.iter().take(12) {
        println!("{}", line);
    }
    // a realistic one
    let argv = vec![wide(r"C:\Program Files\"), wide("x")];
    let cmdline = assemble_cmdline(argv.clone()).unwrap();
    let back = parse_cmdline(&cmdline);
    println!(
        "argv[0]={:?} -> cmdline {:?} -> parsed {:?}",
        show(&argv[0]),
        show(&cmdline),
        back.iter().map(|a| show(a)).collect::<Vec<_>>()
    );
    assert!(
        without_quote.is_empty() && with_quote == 0,
        "argv[0] does not round-trip through the Microsoft parsing rules"
    );
}
