// C13: the result of a pipeline must equal the composition of its stages for
// all data sizes.  A first stage that legitimately stops reading its input
// early (head) makes Pipeline::capture fail with EPIPE instead of returning
// the output of the composition.

use std::sync::mpsc;
use std::thread;
use std::time::Duration;

use subprocess::Exec;

fn with_watchdog<T: Send + 'static>(f: impl FnOnce() -> T + Send + 'static) -> T {
    let (tx, rx) = mpsc::channel();
    thread::spawn(move || {
        let _ = tx.send(f());
    });
    rx.recv_timeout(Duration::from_secs(20))
        .expect("watchdog: timed out")
}

#[test]
fn pipeline_first_stage_stops_reading_early() {
    // reference: what the composition of the stages gives (computed by sh)
    // head -c 10 of a megabyte of 'x', upper-cased
    let expected = "XXXXXXXXXX";

    let res = with_watchdog(|| {
        let data = vec![b'x'; 1_000_000];
        (Exec::cmd("head").arg("-c").arg("10") | Exec::cmd("tr").arg("x").arg("X"))
            .stdin(data)
            .capture()
            .map(|c| (c.stdout_str(), c.exit_status))
            .map_err(|e| format!("{:?}", e))
    });
    println!("pipeline capture returned: {:?}", res);
    let (out, status) = res.expect("capture must return the composition's output, not an error");
    assert_eq!(out, expected);
    assert!(status.success());
}

#[test]
fn pipeline_first_stage_never_reads() {
    // `true | cat` fed with a megabyte: sh gives empty output, exit status 0
    let res = with_watchdog(|| {
        let data = vec![b'x'; 1_000_000];
        (Exec::cmd("true") | Exec::cmd("cat"))
            .stdin(data)
            .capture()
            .map(|c| (c.stdout_str(), c.exit_status))
            .map_err(|e| format!("{:?}", e))
    });
    println!("pipeline capture returned: {:?}", res);
    let (out, status) = res.expect("capture must return the composition's output, not an error");
    assert_eq!(out, "");
    assert!(status.success());
}
