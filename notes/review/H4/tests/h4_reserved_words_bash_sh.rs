// C19: the printable command line must be "correctly quoted for a POSIX shell:
// evaluating it with sh reproduces exactly the original program and argument
// list".
//
// Exec::display_escape quotes the reserved words every shell has (if, then,
// for, ...) but not the words POSIX lists as "may be recognized as reserved
// words on some implementations ... causing unspecified results" unless quoted:
// `function`, `select` (and `time`, which is the name of a very common
// program, /usr/bin/time).  Where sh is bash (RHEL/Fedora, macOS, Arch ...)
// the rendering of Exec::cmd("time").arg("make") therefore does not run the
// program `time` at all (bash runs its own `time` keyword instead).
//
// The test evaluates the rendering with bash invoked under the name `sh`
// (which puts bash into POSIX mode, exactly what those systems' /bin/sh is).
// With dash (this machine's /bin/sh) the same renderings round-trip; that is
// shown as a control.

extern crate subprocess;
extern crate tempfile;

use std::fs;
use std::os::unix::fs::{symlink, PermissionsExt};
use std::path::Path;
use std::process::Command;

use subprocess::Exec;

fn sh_eval(sh: &Path, dir: &Path, cmdline: &str) -> Vec<String> {
    let out = Command::new(sh)
        .arg("-c")
        .arg("eval \"$1\"")
        .arg("sh")
        .arg(cmdline)
        .env("PATH", dir)
        .current_dir(dir)
        .output()
        .unwrap();
    let s = String::from_utf8_lossy(&out.stdout).into_owned();
    let mut v: Vec<String> = s.split('\0').map(|x| x.to_owned()).collect();
    v.pop();
    if !out.stderr.is_empty() {
        v.push(format!("STDERR: {}", String::from_utf8_lossy(&out.stderr).trim()));
    }
    v
}

#[test]
fn words_reserved_by_some_posix_shells() {
    let bash = ["/bin/bash", "/usr/bin/bash"]
        .iter()
        .map(Path::new)
        .find(|p| p.exists())
        .expect("this demonstration needs bash");
    let dir = tempfile::tempdir().unwrap();
    let bash_as_sh = dir.path().join("sh");
    symlink(bash, &bash_as_sh).unwrap();

    let names = ["time", "function", "select", "coproc", "if", "prog"];
    for n in &names {
        let p = dir.path().join(n);
        fs::write(&p, "#!/bin/sh\nprintf '%s\\0' \"${0##*/}\" \"$@\"\n").unwrap();
        fs::set_permissions(&p, fs::Permissions::from_mode(0o755)).unwrap();
    }

    let mut failures = vec![];
    for n in &names {
        let exec = Exec::cmd(n).arg("x").arg("a b");
        let cmdline = exec.to_cmdline_lossy();
        let expected = vec![n.to_string(), "x".to_string(), "a b".to_string()];
        let dash = sh_eval(Path::new("/bin/sh"), dir.path(), &cmdline);
        let bash = sh_eval(&bash_as_sh, dir.path(), &cmdline);
        println!("{:?}: rendering {:?}", exec, cmdline);
        println!("    /bin/sh      -> {:?}", dash);
        println!("    bash as sh   -> {:?}", bash);
        if bash != expected {
            failures.push(format!("{}: {:?}", cmdline, bash));
        }
    }
    // a pipeline stage is a command position as well
    let p = Exec::cmd("prog").arg("x") | Exec::cmd("time").arg("prog");
    println!("{:?}", p);
    assert!(failures.is_empty(), "{:#?}", failures);
}
