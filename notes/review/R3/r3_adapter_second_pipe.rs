// C12: dropping a stream adapter must not hang on a pipe that only the adapter
// can release.  The adapters close *their* stream before Popen::drop waits, and
// Popen::drop closes stdin - but a second OUTPUT pipe the command was configured
// with (stdout/stderr = Redirection::Pipe) stays open in the hidden Popen.  The
// caller only holds `impl Read`/`impl Write`, so nobody can read or close that
// pipe; a child with more than a pipe-full of output for it blocks forever and
// the drop never returns.
//
// Run with --test-threads=1 (the watchdog looks at all children of the process).
use std::fs;
use std::sync::mpsc;
use std::time::Duration;
use subprocess::{Exec, Redirection};

fn children() -> Vec<(i32, char, String)> {
    let me = std::process::id() as i32;
    let mut out = vec![];
    for e in fs::read_dir("/proc").unwrap() {
        let e = e.unwrap();
        let pid: i32 = match e.file_name().to_str().unwrap().parse() {
            Ok(p) => p,
            Err(_) => continue,
        };
        if let Ok(stat) = fs::read_to_string(format!("/proc/{}/stat", pid)) {
            let comm = stat[stat.find('(').unwrap() + 1..stat.rfind(')').unwrap()].to_string();
            let rest = &stat[stat.rfind(')').unwrap() + 2..];
            let mut it = rest.split(' ');
            let state = it.next().unwrap().chars().next().unwrap();
            let ppid: i32 = it.next().unwrap().parse().unwrap();
            if ppid == me {
                out.push((pid, state, comm));
            }
        }
    }
    out
}

// Runs `f` (which creates and drops the adapter) under a watchdog.
fn drop_must_return(name: &str, f: impl FnOnce() + Send + 'static) {
    let (tx, rx) = mpsc::channel();
    std::thread::spawn(move || {
        f();
        tx.send(()).ok();
    });
    let hung = rx.recv_timeout(Duration::from_secs(5)).is_err();
    let kids = children();
    if hung {
        // release the stuck drop so that the test process can finish
        for (pid, _, _) in &kids {
            unsafe {
                libc::kill(*pid, libc::SIGKILL);
            }
        }
        rx.recv_timeout(Duration::from_secs(5)).ok();
    }
    assert!(
        !hung,
        "{}: drop of the adapter still blocked after 5s; children at that time: {:?}",
        name, kids
    );
    assert!(kids.is_empty(), "{}: children left: {:?}", name, kids);
}

// control: the same commands without the second pipe drop at once
#[test]
fn control_without_second_pipe() {
    drop_must_return("control stream_stdin", || {
        let s = Exec::shell("cat >/dev/null; head -c 300000 /dev/zero")
            .stdout(subprocess::NullFile)
            .stream_stdin()
            .unwrap();
        drop(s);
    });
    drop_must_return("control stream_stdout", || {
        let s = Exec::shell("head -c 300000 /dev/zero >&2; echo done")
            .stderr(subprocess::NullFile)
            .stream_stdout()
            .unwrap();
        drop(s);
    });
}

#[test]
fn stream_stdin_with_stdout_pipe() {
    drop_must_return("stream_stdin + stdout(Pipe)", || {
        // the child is "only waiting for end-of-file on its stdin", then
        // "only blocked writing output nobody will read any more"
        let s = Exec::shell("cat >/dev/null; head -c 300000 /dev/zero")
            .stdout(Redirection::Pipe)
            .stream_stdin()
            .unwrap();
        drop(s);
    });
}

#[test]
fn stream_stdout_with_stderr_pipe() {
    drop_must_return("stream_stdout + stderr(Pipe)", || {
        let s = Exec::shell("head -c 300000 /dev/zero >&2; echo done")
            .stderr(Redirection::Pipe)
            .stream_stdout()
            .unwrap();
        drop(s);
    });
}

#[test]
fn stream_stderr_with_stdout_pipe() {
    drop_must_return("stream_stderr + stdout(Pipe)", || {
        let s = Exec::shell("head -c 300000 /dev/zero; echo done >&2")
            .stdout(Redirection::Pipe)
            .stream_stderr()
            .unwrap();
        drop(s);
    });
}

#[test]
fn pipeline_stream_stdin_with_stdout_pipe() {
    drop_must_return("pipeline stream_stdin + stdout(Pipe)", || {
        let s = (Exec::cmd("cat") | Exec::shell("cat >/dev/null; head -c 300000 /dev/zero"))
            .stdout(Redirection::Pipe)
            .stream_stdin()
            .unwrap();
        drop(s);
    });
}
