// C12 exploration: drop every adapter/terminator with several child behaviours,
// watch for hangs (watchdog) and zombies.
use std::fs;
use std::io::{Read, Write};
use std::sync::mpsc;
use std::time::Duration;
use subprocess::{Exec, Pipeline, Redirection};

fn children() -> Vec<(i32, char, String)> {
    let me = std::process::id() as i32;
    let mut out = vec![];
    for e in fs::read_dir("/proc").unwrap() {
        let e = e.unwrap();
        let pid: i32 = match e.file_name().to_str().unwrap().parse() {
            Ok(p) => p,
            Err(_) => continue,
        };
        if let Ok(stat) = fs::read_to_string(format!("/proc/{}/stat", pid)) {
            let comm = stat[stat.find('(').unwrap() + 1..stat.rfind(')').unwrap()].to_string();
            let rest = &stat[stat.rfind(')').unwrap() + 2..];
            let mut it = rest.split(' ');
            let state = it.next().unwrap().chars().next().unwrap();
            let ppid: i32 = it.next().unwrap().parse().unwrap();
            if ppid == me {
                out.push((pid, state, comm));
            }
        }
    }
    out
}

fn run(name: &str, f: impl FnOnce() + Send + 'static, problems: &mut Vec<String>) {
    let (tx, rx) = mpsc::channel();
    std::thread::spawn(move || {
        f();
        tx.send(()).ok();
    });
    let hung = rx.recv_timeout(Duration::from_secs(3)).is_err();
    let kids = children();
    if hung || !kids.is_empty() {
        problems.push(format!("{}: hung={} children left={:?}", name, hung, kids));
        for (pid, _, _) in kids {
            unsafe {
                libc::kill(pid, 9);
            }
        }
        if hung {
            // let the stuck thread finish its wait
            rx.recv_timeout(Duration::from_secs(3)).ok();
        } else {
            for (pid, _, _) in children() {
                unsafe {
                    libc::waitpid(pid, std::ptr::null_mut(), 0);
                }
            }
        }
    } else {
        println!("{}: ok", name);
    }
}

const BIGOUT: &str = "cat >/dev/null; head -c 300000 /dev/zero";
const BIGERR: &str = "head -c 300000 /dev/zero >&2";

#[test]
fn explore() {
    let mut p = vec![];

    // plain adapters, standard behaviours
    run("stream_stdout unbounded, drop unread", || {
        let s = Exec::cmd("yes").stream_stdout().unwrap();
        drop(s);
    }, &mut p);
    run("stream_stdout unbounded, drop after partial read", || {
        let mut s = Exec::cmd("yes").stream_stdout().unwrap();
        let mut b = [0u8; 10];
        s.read_exact(&mut b).unwrap();
        drop(s);
    }, &mut p);
    run("stream_stderr bigerr, drop unread", || {
        let s = Exec::shell(BIGERR).stream_stderr().unwrap();
        drop(s);
    }, &mut p);
    run("stream_stdin cat, drop", || {
        let mut s = Exec::cmd("cat").stdout(subprocess::NullFile).stream_stdin().unwrap();
        s.write_all(b"hello").unwrap();
        drop(s);
    }, &mut p);
    run("stream_stdout + stdin pipe (cat)", || {
        let s = Exec::cmd("cat").stdin(Redirection::Pipe).stream_stdout().unwrap();
        drop(s);
    }, &mut p);
    run("pipeline stream_stdout yes|cat drop unread", || {
        let s = (Exec::cmd("yes") | Exec::cmd("cat")).stream_stdout().unwrap();
        drop(s);
    }, &mut p);
    run("pipeline stream_stdout yes|cat|cat drop partial", || {
        let mut s = (Exec::cmd("yes") | Exec::cmd("cat") | Exec::cmd("cat")).stream_stdout().unwrap();
        let mut b = [0u8; 10];
        s.read_exact(&mut b).unwrap();
        drop(s);
    }, &mut p);
    run("pipeline stream_stdin cat|cat>/dev/null drop", || {
        let mut s = (Exec::cmd("cat") | Exec::cmd("cat")).stdout(subprocess::NullFile).stream_stdin().unwrap();
        s.write_all(b"x").unwrap();
        drop(s);
    }, &mut p);
    run("pipeline stream_stdout with stdin pipe cat|cat", || {
        let s = (Exec::cmd("cat") | Exec::cmd("cat")).stdin(Redirection::Pipe).stream_stdout().unwrap();
        drop(s);
    }, &mut p);
    run("exec capture bigout+bigerr", || {
        let c = Exec::shell("head -c 300000 /dev/zero; head -c 300000 /dev/zero >&2")
            .stdout(Redirection::Pipe).stderr(Redirection::Pipe).capture().unwrap();
        assert_eq!(c.stdout.len(), 300000);
        assert_eq!(c.stderr.len(), 300000);
    }, &mut p);
    run("pipeline capture", || {
        let c = (Exec::shell("head -c 300000 /dev/zero; head -c 300000 /dev/zero >&2") | Exec::cmd("cat")).capture().unwrap();
        assert_eq!(c.stdout.len(), 300000);
        assert_eq!(c.stderr.len(), 300000);
    }, &mut p);
    run("pipeline join", || {
        (Exec::shell("echo a") | Exec::shell("cat >/dev/null; sleep 0.2")).join().unwrap();
    }, &mut p);
    run("pipeline join last exits first", || {
        (Exec::shell("sleep 0.3") | Exec::shell("exit 3")).join().unwrap();
    }, &mut p);
    run("pipeline popen fails part-way", || {
        let r = (Exec::cmd("yes") | Exec::cmd("cat") | Exec::cmd("/nonexistent/x")).popen();
        assert!(r.is_err());
    }, &mut p);
    run("pipeline capture fails part-way with stdin data", || {
        let r = (Exec::cmd("cat") | Exec::cmd("/nonexistent/x")).stdin("data").capture();
        assert!(r.is_err());
    }, &mut p);
    run("pipeline stream_stdin fails part-way", || {
        let r = (Exec::cmd("cat") | Exec::cmd("/nonexistent/x")).stream_stdin();
        assert!(r.is_err());
    }, &mut p);

    // adapters that own a second pipe nobody can reach
    run("X1 stream_stdin + stdout(Pipe), child writes 300k", || {
        let s = Exec::shell(BIGOUT).stdout(Redirection::Pipe).stream_stdin().unwrap();
        drop(s);
    }, &mut p);
    run("X2 stream_stdout + stderr(Pipe), child writes 300k to stderr", || {
        let s = Exec::shell(BIGERR).stderr(Redirection::Pipe).stream_stdout().unwrap();
        drop(s);
    }, &mut p);
    run("X3 stream_stderr + stdout(Pipe), child writes 300k to stdout", || {
        let s = Exec::shell("head -c 300000 /dev/zero").stdout(Redirection::Pipe).stream_stderr().unwrap();
        drop(s);
    }, &mut p);
    run("X4 join + stdin(Pipe), cat", || {
        Exec::cmd("cat").stdin(Redirection::Pipe).join().unwrap();
    }, &mut p);
    run("X5 pipeline join + stdin(Pipe), cat|cat", || {
        (Exec::cmd("cat") | Exec::cmd("cat")).stdin(Redirection::Pipe).join().unwrap();
    }, &mut p);
    run("X6 pipeline stream_stdin + stdout(Pipe)", || {
        let s = (Exec::cmd("cat") | Exec::shell(BIGOUT)).stdout(Redirection::Pipe).stream_stdin().unwrap();
        drop(s);
    }, &mut p);
    run("X7 join + stdout(Pipe), child writes 300k", || {
        Exec::shell("head -c 300000 /dev/zero").stdout(Redirection::Pipe).join().unwrap();
    }, &mut p);
    let _ = Pipeline::new;
    println!("---- problems ----");
    for x in &p {
        println!("{}", x);
    }
    assert!(p.is_empty());
}
