// C07 exploration: each child-side step failing with various errno values.
use std::fs;
use std::os::unix::fs::PermissionsExt;
use subprocess::{Popen, PopenConfig, PopenError, Redirection};

fn open_fds() -> Vec<i32> {
    let mut v: Vec<i32> = fs::read_dir("/proc/self/fd")
        .unwrap()
        .filter_map(|e| e.ok()?.file_name().to_str()?.parse().ok())
        .collect();
    v.sort();
    v.pop();
    v
}

fn children() -> Vec<(i32, char)> {
    let me = std::process::id() as i32;
    let mut out = vec![];
    for e in fs::read_dir("/proc").unwrap() {
        let e = e.unwrap();
        let pid: i32 = match e.file_name().to_str().unwrap().parse() {
            Ok(p) => p,
            Err(_) => continue,
        };
        if let Ok(stat) = fs::read_to_string(format!("/proc/{}/stat", pid)) {
            let rest = &stat[stat.rfind(')').unwrap() + 2..];
            let mut it = rest.split(' ');
            let state = it.next().unwrap().chars().next().unwrap();
            let ppid: i32 = it.next().unwrap().parse().unwrap();
            if ppid == me {
                out.push((pid, state));
            }
        }
    }
    out
}

fn errno_of(r: &Result<Popen, PopenError>) -> Option<i32> {
    match r {
        Err(PopenError::IoError(e)) => e.raw_os_error(),
        _ => None,
    }
}

#[test]
fn child_steps() {
    let dir = tempfile::tempdir().unwrap();
    let d = dir.path();
    let noexec = d.join("noexec");
    fs::write(&noexec, "#!/bin/sh\nexit 0\n").unwrap();
    fs::set_permissions(&noexec, fs::Permissions::from_mode(0o644)).unwrap();
    let noshebang = d.join("noshebang");
    fs::write(&noshebang, "exit 0\n").unwrap();
    fs::set_permissions(&noshebang, fs::Permissions::from_mode(0o755)).unwrap();
    let badinterp = d.join("badinterp");
    fs::write(&badinterp, "#!/nonexistent/interp\n").unwrap();
    fs::set_permissions(&badinterp, fs::Permissions::from_mode(0o755)).unwrap();
    let lp = d.join("loop");
    std::os::unix::fs::symlink(&lp, &lp).unwrap();
    let afile = d.join("afile");
    fs::write(&afile, "x").unwrap();

    let big = "x".repeat(200 * 1024);
    let mut problems = vec![];
    type Case = (&'static str, Vec<String>, Box<dyn Fn(&mut PopenConfig)>, i32);
    let s = |p: &std::path::Path| p.to_str().unwrap().to_string();
    let cases: Vec<Case> = vec![
        ("exec ENOENT abs", vec!["/nonexistent/x".into()], Box::new(|_| ()), libc::ENOENT),
        ("exec ENOENT path", vec!["nonexistent-cmd-xyz".into()], Box::new(|_| ()), libc::ENOENT),
        ("exec EACCES", vec![s(&noexec)], Box::new(|_| ()), libc::EACCES),
        ("exec EACCES dir", vec![s(d)], Box::new(|_| ()), libc::EACCES),
        ("exec ENOEXEC", vec![s(&noshebang)], Box::new(|_| ()), libc::ENOEXEC),
        ("exec badinterp", vec![s(&badinterp)], Box::new(|_| ()), libc::ENOENT),
        ("exec ELOOP", vec![s(&lp)], Box::new(|_| ()), libc::ELOOP),
        ("exec ENOTDIR", vec![format!("{}/x", s(&afile))], Box::new(|_| ()), libc::ENOTDIR),
        ("exec E2BIG", vec!["true".into(), big.clone()], Box::new(|_| ()), libc::E2BIG),
        ("exec ENAMETOOLONG", vec![format!("/{}", "y".repeat(5000))], Box::new(|_| ()), libc::ENAMETOOLONG),
        ("chdir ENOENT", vec!["true".into()], Box::new(|c| c.cwd = Some("/nonexistent/dir".into())), libc::ENOENT),
        ("chdir ENOTDIR", vec!["true".into()], Box::new({ let a = s(&afile); move |c| c.cwd = Some(a.clone().into()) }), libc::ENOTDIR),
        ("setuid EINVAL", vec!["true".into()], Box::new(|c| c.setuid = Some(u32::MAX)), libc::EINVAL),
        ("setgid EINVAL", vec!["true".into()], Box::new(|c| c.setgid = Some(u32::MAX)), libc::EINVAL),
        ("executable ENOENT", vec!["true".into()], Box::new(|c| c.executable = Some("/nonexistent/e".into())), libc::ENOENT),
    ];
    for (name, argv, tweak, want) in &cases {
        for detached in [false, true] {
            for streams in 0..3 {
                let mut cfg = PopenConfig {
                    detached,
                    ..Default::default()
                };
                if streams >= 1 {
                    cfg.stdin = Redirection::Pipe;
                    cfg.stdout = Redirection::Pipe;
                    cfg.stderr = Redirection::Pipe;
                }
                if streams == 2 {
                    cfg.stderr = Redirection::Merge;
                    cfg.setpgid = true;
                }
                tweak(&mut cfg);
                let before = open_fds();
                let t0 = std::time::Instant::now();
                let r = Popen::create(argv, cfg);
                let el = t0.elapsed();
                let got = errno_of(&r);
                if let Ok(mut p) = r {
                    problems.push(format!("{}: started! {:?}", name, p.wait()));
                }
                let after = open_fds();
                let kids = children();
                if got != Some(*want) || before != after || !kids.is_empty() || el.as_millis() > 500 {
                    problems.push(format!(
                        "{} det={} streams={}: errno {:?} want {} fds {:?}->{:?} kids {:?} {:?}",
                        name, detached, streams, got, want, before, after, kids, el
                    ));
                }
            }
        }
    }
    for p in &problems {
        println!("{}", p);
    }
    assert!(problems.is_empty());
}
