// C07 exploration: make the k-th descriptor allocation fail (RLIMIT_NOFILE) for
// every k and every stream configuration, detached on/off; after a failed
// create no descriptor may stay open and no child may remain.
use std::fs;
use subprocess::{Popen, PopenConfig, Redirection};

fn open_fds() -> Vec<i32> {
    let mut v: Vec<i32> = fs::read_dir("/proc/self/fd")
        .unwrap()
        .filter_map(|e| e.ok()?.file_name().to_str()?.parse().ok())
        .collect();
    v.sort();
    // the read_dir descriptor itself is the last one
    v.pop();
    v
}

fn children() -> Vec<(i32, char)> {
    let me = std::process::id() as i32;
    let mut out = vec![];
    for e in fs::read_dir("/proc").unwrap() {
        let e = e.unwrap();
        let pid: i32 = match e.file_name().to_str().unwrap().parse() {
            Ok(p) => p,
            Err(_) => continue,
        };
        if let Ok(stat) = fs::read_to_string(format!("/proc/{}/stat", pid)) {
            let rest = &stat[stat.rfind(')').unwrap() + 2..];
            let mut it = rest.split(' ');
            let state = it.next().unwrap().chars().next().unwrap();
            let ppid: i32 = it.next().unwrap().parse().unwrap();
            if ppid == me {
                out.push((pid, state));
            }
        }
    }
    out
}

fn set_nofile(n: u64) -> u64 {
    unsafe {
        let mut old: libc::rlimit = std::mem::zeroed();
        libc::getrlimit(libc::RLIMIT_NOFILE, &mut old);
        let new = libc::rlimit {
            rlim_cur: n,
            rlim_max: old.rlim_max,
        };
        assert_eq!(libc::setrlimit(libc::RLIMIT_NOFILE, &new), 0);
        old.rlim_cur
    }
}

fn redir(kind: usize, is_in: bool) -> Redirection {
    match kind {
        0 => Redirection::None,
        1 => Redirection::Pipe,
        2 => Redirection::File(if is_in {
            fs::File::open("/dev/null").unwrap()
        } else {
            fs::OpenOptions::new().write(true).open("/dev/null").unwrap()
        }),
        3 => Redirection::Merge,
        _ => unreachable!(),
    }
}

#[test]
fn emfile_sweep() {
    let mut problems = vec![];
    let mut errs = std::collections::BTreeMap::<String, usize>::new();
    for &prog in &["true", "/nonexistent/prog"] {
        for detached in [false, true] {
            for i in 0..3 {
                for o in 0..4 {
                    for e in 0..4 {
                        if o == 3 && e == 3 {
                            continue;
                        }
                        for extra in 0..10u64 {
                            let cfg = PopenConfig {
                                stdin: redir(i, true),
                                stdout: redir(o, false),
                                stderr: redir(e, false),
                                detached,
                                ..Default::default()
                            };
                            let before = open_fds();
                            let top = *before.last().unwrap() as u64 + 1;
                            let old = set_nofile(top + extra);
                            let res = Popen::create(&[prog], cfg);
                            set_nofile(old);
                            let failed = res.is_err();
                            let errtxt = res.as_ref().err().map(|e| format!("{:?}", e));
                            *errs.entry(format!("{} {:?}", prog, errtxt)).or_insert(0) += 1;
                            if let Ok(mut p) = res {
                                if prog != "true" {
                                    problems.push(format!("started nonexistent?!"));
                                }
                                p.wait().unwrap();
                                drop(p);
                            }
                            std::thread::sleep(std::time::Duration::from_millis(2));
                            let after = open_fds();
                            // files given to config are consumed either way
                            let before_wo: Vec<i32> = before
                                .iter()
                                .cloned()
                                .filter(|fd| after.contains(fd) || *fd < 3)
                                .collect();
                            let leaked: Vec<i32> = after
                                .iter()
                                .cloned()
                                .filter(|fd| !before.contains(fd))
                                .collect();
                            let _ = before_wo;
                            let kids = children();
                            if !leaked.is_empty() || !kids.is_empty() {
                                problems.push(format!(
                                    "prog={} det={} i={} o={} e={} extra={} failed={} err={:?} leaked={:?} kids={:?}",
                                    prog, detached, i, o, e, extra, failed, errtxt, leaked, kids
                                ));
                                // reap whatever is left so later rounds are clean
                                for (pid, _) in kids {
                                    unsafe {
                                        libc::kill(pid, 9);
                                        libc::waitpid(pid, std::ptr::null_mut(), 0);
                                    }
                                }
                            }
                        }
                    }
                }
            }
        }
    }
    println!("{:#?}", errs);
    for p in &problems {
        println!("{}", p);
    }
    assert!(problems.is_empty(), "{} problems", problems.len());
}
