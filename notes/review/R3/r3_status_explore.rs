// C09/C10/C11 exploration: exit codes, fatal signals, query orderings,
// external reaping, signals after reaping, wait_timeout accuracy.
use std::time::{Duration, Instant};
use subprocess::unix::PopenExt;
use subprocess::{Exec, ExitStatus, Popen, PopenConfig};

fn sh(cmd: &str) -> Popen {
    Popen::create(&["sh", "-c", cmd], PopenConfig::default()).unwrap()
}

#[test]
fn statuses() {
    for code in 0..=255u32 {
        let mut p = sh(&format!("exit {}", code));
        let how = code % 3;
        let st = match how {
            0 => p.wait().unwrap(),
            1 => loop {
                if let Some(s) = p.poll() {
                    break s;
                }
                std::thread::sleep(Duration::from_millis(1));
            },
            _ => p.wait_timeout(Duration::from_secs(5)).unwrap().unwrap(),
        };
        assert_eq!(st, ExitStatus::Exited(code));
        assert_eq!(p.pid(), None);
        assert_eq!(p.poll(), Some(st));
        assert_eq!(p.wait().unwrap(), st);
        assert_eq!(p.wait_timeout(Duration::from_secs(100000)).unwrap(), Some(st));
        assert_eq!(p.exit_status(), Some(st));
        p.terminate().unwrap();
        p.kill().unwrap();
        p.send_signal(9).unwrap();
    }
    for sig in 1..=64 {
        if [17, 18, 19, 20, 21, 22, 23, 28, 32, 33].contains(&sig) {
            continue; // not fatal by default / reserved
        }
        let mut p = Popen::create(&["sleep", "100"], PopenConfig::default()).unwrap();
        assert_eq!(p.poll(), None);
        p.send_signal(sig).unwrap();
        let st = p.wait().unwrap();
        assert_eq!(st, ExitStatus::Signaled(sig as u8), "sig {}", sig);
        assert_eq!(p.poll(), Some(st));
    }
}

#[test]
fn external_reap() {
    let mut p = sh("exit 3");
    let pid = p.pid().unwrap();
    unsafe {
        libc::waitpid(pid as i32, std::ptr::null_mut(), 0);
    }
    assert_eq!(p.poll(), Some(ExitStatus::Undetermined));
    assert_eq!(p.wait().unwrap(), ExitStatus::Undetermined);
    assert_eq!(p.pid(), None);
    p.terminate().unwrap();

    let mut p = sh("exit 3");
    let pid = p.pid().unwrap();
    unsafe {
        libc::waitpid(pid as i32, std::ptr::null_mut(), 0);
    }
    assert_eq!(p.wait().unwrap(), ExitStatus::Undetermined);

    let mut p = sh("exit 3");
    let pid = p.pid().unwrap();
    unsafe {
        libc::waitpid(pid as i32, std::ptr::null_mut(), 0);
    }
    assert_eq!(
        p.wait_timeout(Duration::from_secs(10)).unwrap(),
        Some(ExitStatus::Undetermined)
    );
    drop(p);
}

#[test]
fn timing() {
    // child never exits within d
    for &ms in &[0u64, 1, 3, 10, 50, 130, 250] {
        let mut p = Popen::create(&["sleep", "100"], PopenConfig::default()).unwrap();
        let d = Duration::from_millis(ms);
        let t = Instant::now();
        let r = p.wait_timeout(d).unwrap();
        let el = t.elapsed();
        assert_eq!(r, None);
        assert!(el >= d, "early {:?} < {:?}", el, d);
        assert!(el < d + Duration::from_millis(30), "late {:?} for {:?}", el, d);
        p.kill().unwrap();
    }
    let mut p = Popen::create(&["sleep", "100"], PopenConfig::default()).unwrap();
    let d = Duration::from_micros(300);
    let t = Instant::now();
    assert_eq!(p.wait_timeout(d).unwrap(), None);
    assert!(t.elapsed() >= d);
    p.kill().unwrap();
    drop(p);
    // child exits during the wait
    for &ms in &[5u64, 40, 120, 333, 700] {
        let mut p = sh(&format!("sleep {}", ms as f64 / 1000.0));
        let t = Instant::now();
        let r = p.wait_timeout(Duration::from_secs(3600 * 24 * 30)).unwrap();
        let el = t.elapsed();
        assert_eq!(r, Some(ExitStatus::Exited(0)));
        assert!(el < Duration::from_millis(ms + 130), "{:?} for exit at {}", el, ms);
    }
    // join on detached
    let t = Instant::now();
    let p = Exec::cmd("sleep").arg("100").detached().popen().unwrap();
    let pid = p.pid().unwrap();
    drop(p);
    assert!(t.elapsed() < Duration::from_millis(200));
    unsafe {
        libc::kill(pid as i32, 9);
        let mut st = 0;
        assert_eq!(libc::waitpid(pid as i32, &mut st, 0), pid as i32, "detached drop must not reap");
    }
}
