// C11 on Windows, shown by a copy of src/win32.rs::WaitForSingleObject (the
// function behind Popen::wait_timeout/poll on Windows, via
// popen.rs::os::wait_handle).  Only the system call is replaced: the stand-in
// behaves like the documented Win32 call for a process that is still running -
// it waits `timeout_ms` milliseconds (not at all for 0) and returns WAIT_TIMEOUT.
//
// The copy is verbatim apart from that substitution and the constants.
use std::time::{Duration, Instant};

const INFINITE: u32 = 0xFFFF_FFFF;
const WAIT_TIMEOUT: u32 = 258;
const WAIT_OBJECT_0: u32 = 0;

// stand-in for synchapi::WaitForSingleObject on a handle that is never signaled
fn sys_wait_for_single_object(timeout_ms: u32) -> u32 {
    assert!(timeout_ms != INFINITE, "would block forever");
    std::thread::sleep(Duration::from_millis(timeout_ms as u64));
    WAIT_TIMEOUT
}

#[derive(Debug, PartialEq)]
enum WaitEvent {
    Object0,
    Timeout,
}

// --- copy of win32::WaitForSingleObject -------------------------------------
fn wait_for_single_object(mut timeout: Option<Duration>) -> WaitEvent {
    let deadline = timeout.map(|timeout| Instant::now() + timeout);

    let result = loop {
        // Allow timeouts greater than 50 days by clamping the
        // timeout and sleeping in a loop.
        let (timeout_ms, overflow) = timeout
            .map(|timeout| {
                let timeout = timeout.as_millis();
                if timeout < INFINITE as u128 {
                    (timeout as u32, false)
                } else {
                    (INFINITE - 1, true)
                }
            })
            .unwrap_or((INFINITE, false));

        let result = sys_wait_for_single_object(timeout_ms);
        if result != WAIT_TIMEOUT || !overflow {
            break result;
        }
        let deadline = deadline.unwrap();
        let now = Instant::now();
        if now >= deadline {
            break WAIT_TIMEOUT;
        }
        timeout = Some(deadline - now);
    };

    if result == WAIT_OBJECT_0 {
        WaitEvent::Object0
    } else {
        WaitEvent::Timeout
    }
}
// -----------------------------------------------------------------------------

// popen.rs (windows) os_wait_timeout: wait_handle(Some(dur)) -> the call above;
// TIMEOUT leaves the state Running and wait_timeout returns Ok(None).
fn wait_timeout_reports_still_running_after(d: Duration) -> Duration {
    let t = Instant::now();
    assert_eq!(wait_for_single_object(Some(d)), WaitEvent::Timeout);
    t.elapsed()
}

#[test]
fn still_running_is_never_reported_before_d() {
    let mut bad = vec![];
    for &us in &[300u64, 999, 1_500, 1_999, 20_900] {
        let d = Duration::from_micros(us);
        let elapsed = wait_timeout_reports_still_running_after(d);
        println!("wait_timeout({:?}) said 'still running' after {:?}", d, elapsed);
        if elapsed < d {
            bad.push((d, elapsed));
        }
    }
    assert!(bad.is_empty(), "reported 'still running' before d: {:?}", bad);
}
