// C07: "the call returns an error carrying the operating-system error of the
// step that failed".  The program IS found on PATH but cannot be executed
// (EACCES: no execute permission; E2BIG: argument list too long); a later PATH
// entry that simply lacks the program overwrites the real cause with ENOENT.
use std::fs;
use std::os::unix::fs::PermissionsExt;
use subprocess::{Popen, PopenConfig, PopenError};

fn errno_of(r: Result<Popen, PopenError>) -> Option<i32> {
    match r {
        Err(PopenError::IoError(e)) => e.raw_os_error(),
        Err(_) => None,
        Ok(mut p) => {
            p.wait().ok();
            Some(0)
        }
    }
}

#[test]
fn path_search_reports_the_error_of_the_exec_that_failed() {
    let dir = tempfile::tempdir().unwrap();
    let d1 = dir.path().join("d1");
    let d2 = dir.path().join("d2");
    fs::create_dir(&d1).unwrap();
    fs::create_dir(&d2).unwrap();
    // present, but not executable by anyone (EACCES even for root)
    let prog = d1.join("r3prog");
    fs::write(&prog, "#!/bin/sh\nexit 0\n").unwrap();
    fs::set_permissions(&prog, fs::Permissions::from_mode(0o644)).unwrap();
    // present and executable, but will be given too large an argument
    let prog2 = d1.join("r3big");
    fs::write(&prog2, "#!/bin/sh\nexit 0\n").unwrap();
    fs::set_permissions(&prog2, fs::Permissions::from_mode(0o755)).unwrap();
    let big = "x".repeat(200 * 1024);

    let old = std::env::var_os("PATH");

    // control: the directory holding the program is the last PATH entry
    std::env::set_var("PATH", format!("{}:{}", d2.display(), d1.display()));
    let ctl_eacces = errno_of(Popen::create(&["r3prog"], PopenConfig::default()));
    let ctl_e2big = errno_of(Popen::create(&["r3big", &big], PopenConfig::default()));

    // same program, same failure, but one more (irrelevant) entry follows
    std::env::set_var("PATH", format!("{}:{}", d1.display(), d2.display()));
    let got_eacces = errno_of(Popen::create(&["r3prog"], PopenConfig::default()));
    let got_e2big = errno_of(Popen::create(&["r3big", &big], PopenConfig::default()));

    if let Some(old) = old {
        std::env::set_var("PATH", old);
    }
    println!(
        "control: EACCES case -> {:?}, E2BIG case -> {:?}",
        ctl_eacces, ctl_e2big
    );
    println!(
        "program dir first: EACCES case -> {:?}, E2BIG case -> {:?}",
        got_eacces, got_e2big
    );
    assert_eq!(ctl_eacces, Some(libc::EACCES));
    assert_eq!(ctl_e2big, Some(libc::E2BIG));
    assert_eq!(got_eacces, Some(libc::EACCES), "EACCES replaced by errno of another PATH entry");
    assert_eq!(got_e2big, Some(libc::E2BIG), "E2BIG replaced by errno of another PATH entry");
}
